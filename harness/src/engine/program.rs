//! Program DSL: fixed-width steps shared by proptest generation and byte decoding.
use proptest::prelude::*;
use serde::{Deserialize, Serialize};

#[derive(Clone, Debug, PartialEq, Eq, Hash, Serialize, Deserialize)]
pub struct Step {
    pub k: u8,
    pub r: u8,
    pub a: u16,
    pub b: u16,
    pub c: u16,
    pub d: u16,
    pub n: i64,
}

#[derive(Clone, Debug, PartialEq, Eq, Hash, Serialize, Deserialize)]
pub struct Program {
    /// text encoding selector 0..4
    pub enc: u8,
    /// number of replicas (clamped to 1..=5 by the interpreter)
    pub nrep: u8,
    /// start from a shared base document with a list, a text and a map
    pub shared: bool,
    pub steps: Vec<Step>,
    /// size of the key pool (0 = all keys); small pools make concurrent writers collide
    #[serde(default)]
    pub nkeys: u8,
    /// 1 = counter-heavy values (COUNTER preset): registers mix counters and plain values
    #[serde(default)]
    pub flavor: u8,
}

// step kinds; lower = simpler (shrinking moves towards 0)
pub const PUT: u8 = 0;
pub const COMMIT: u8 = 1;
pub const MERGE: u8 = 2;
pub const LIST_INSERT: u8 = 3;
pub const SPLICE_TEXT: u8 = 4;
pub const DELETE: u8 = 5;
pub const LIST_DELETE: u8 = 6;
pub const LIST_PUT: u8 = 7;
pub const PUT_OBJECT: u8 = 8;
pub const INSERT_OBJECT: u8 = 9;
pub const INCREMENT: u8 = 10;
pub const LIST_INCREMENT: u8 = 11;
pub const MARK: u8 = 12;
pub const UNMARK: u8 = 13;
pub const SPLICE: u8 = 14;
pub const BLOCK: u8 = 15;
pub const FORK: u8 = 16;
pub const SAVE_LOAD: u8 = 17;
pub const EMPTY_CHANGE: u8 = 18;
pub const ROLLBACK: u8 = 19;
pub const APPLY: u8 = 20;
pub const SYNC: u8 = 21;
pub const RECORD_HEADS: u8 = 22;
pub const UPDATE_TEXT: u8 = 23;
pub const ISOLATE: u8 = 24;
pub const INTEGRATE: u8 = 25;
pub const SET_ACTOR: u8 = 26;
pub const TEXT_PUT: u8 = 27;
pub const LOAD_INC: u8 = 28;
pub const NKINDS: u8 = 29;

pub fn kind_name(k: u8) -> &'static str {
    match k {
        PUT => "put",
        COMMIT => "commit",
        MERGE => "merge",
        LIST_INSERT => "list_insert",
        SPLICE_TEXT => "splice_text",
        DELETE => "delete",
        LIST_DELETE => "list_delete",
        LIST_PUT => "list_put",
        PUT_OBJECT => "put_object",
        INSERT_OBJECT => "insert_object",
        INCREMENT => "increment",
        LIST_INCREMENT => "list_increment",
        MARK => "mark",
        UNMARK => "unmark",
        SPLICE => "splice",
        BLOCK => "block",
        FORK => "fork",
        SAVE_LOAD => "save_load",
        EMPTY_CHANGE => "empty_change",
        ROLLBACK => "rollback",
        APPLY => "apply_changes",
        SYNC => "sync",
        RECORD_HEADS => "record_heads",
        UPDATE_TEXT => "update_text",
        ISOLATE => "isolate",
        INTEGRATE => "integrate",
        SET_ACTOR => "set_actor",
        TEXT_PUT => "text_put",
        LOAD_INC => "load_incremental",
        _ => "nop",
    }
}

impl Step {
    pub fn describe(&self) -> String {
        format!("{}(r{} a={} b={} c={} d={} n={})", kind_name(self.k), self.r, self.a, self.b, self.c, self.d, self.n)
    }
}
impl Program {
    pub fn describe(&self) -> serde_json::Value {
        serde_json::json!({
            "enc": self.enc, "nrep": self.nrep, "shared": self.shared, "nkeys": self.nkeys, "flavor": self.flavor,
            "steps": self.steps.iter().map(|s| s.describe()).collect::<Vec<_>>()
        })
    }
}

/// monotone selector: maps a u16 onto 0..n (n>0); shrinking the selector moves towards 0
pub fn sel(x: u16, n: usize) -> usize {
    if n == 0 {
        0
    } else {
        ((x as usize) * n) >> 16
    }
}

pub type Preset = &'static [(u8, u32)];

/// general multi-replica history: edits, commits, replication
pub const HISTORY: Preset = &[
    (PUT, 14),
    (COMMIT, 10),
    (MERGE, 12),
    (LIST_INSERT, 10),
    (SPLICE_TEXT, 10),
    (DELETE, 6),
    (LIST_DELETE, 6),
    (LIST_PUT, 5),
    (PUT_OBJECT, 4),
    (INSERT_OBJECT, 3),
    (INCREMENT, 5),
    (LIST_INCREMENT, 3),
    (MARK, 5),
    (UNMARK, 2),
    (SPLICE, 3),
    (BLOCK, 2),
    (FORK, 2),
    (SAVE_LOAD, 2),
    (EMPTY_CHANGE, 1),
    (ROLLBACK, 1),
    (APPLY, 3),
    (RECORD_HEADS, 2),
    (TEXT_PUT, 1),
    (SET_ACTOR, 1),
];

/// conflict-heavy: few keys, many concurrent writers
pub const CONFLICT: Preset = &[
    (PUT, 18),
    (COMMIT, 8),
    (MERGE, 14),
    (LIST_INSERT, 12),
    (SPLICE_TEXT, 6),
    (DELETE, 8),
    (LIST_DELETE, 8),
    (LIST_PUT, 8),
    (PUT_OBJECT, 5),
    (INSERT_OBJECT, 3),
    (INCREMENT, 8),
    (LIST_INCREMENT, 5),
    (MARK, 3),
    (SPLICE, 2),
    (TEXT_PUT, 2),
    (FORK, 1),
    (RECORD_HEADS, 2),
];

/// counters conflicting with plain values in map keys and list elements, incremented, delivered in batches
pub const COUNTER: Preset = &[
    (LIST_PUT, 18),
    (LIST_INCREMENT, 14),
    (PUT, 24),
    (INCREMENT, 16),
    (MERGE, 18),
    (COMMIT, 6),
    (LIST_INSERT, 3),
    (LIST_DELETE, 3),
    (DELETE, 3),
    (FORK, 1),
    (RECORD_HEADS, 3),
    (SAVE_LOAD, 1),
    (APPLY, 2),
];

/// concurrent writes to the same list elements followed by splices and deletes of those elements
pub const SEQ_CONFLICT: Preset = &[
    (LIST_PUT, 22),
    (SPLICE, 14),
    (LIST_DELETE, 8),
    (MERGE, 18),
    (COMMIT, 8),
    (LIST_INSERT, 5),
    (LIST_INCREMENT, 3),
    (SPLICE_TEXT, 6),
    (TEXT_PUT, 6),
    (SAVE_LOAD, 2),
    (FORK, 1),
    (RECORD_HEADS, 3),
    (APPLY, 2),
];

/// concurrent puts on the same text elements (values of different widths), then splices that delete them
pub const TEXT_CONFLICT: Preset = &[
    (TEXT_PUT, 24),
    (SPLICE_TEXT, 26),
    (MERGE, 20),
    (COMMIT, 8),
    (MARK, 4),
    (RECORD_HEADS, 3),
    (SAVE_LOAD, 1),
    (FORK, 1),
];

/// text heavy
pub const TEXT: Preset = &[
    (SPLICE_TEXT, 30),
    (COMMIT, 8),
    (MERGE, 10),
    (MARK, 14),
    (UNMARK, 5),
    (BLOCK, 5),
    (TEXT_PUT, 3),
    (UPDATE_TEXT, 3),
    (PUT, 2),
    (PUT_OBJECT, 2),
    (FORK, 1),
    (SAVE_LOAD, 2),
    (RECORD_HEADS, 3),
    (ROLLBACK, 1),
];

/// list / cursor heavy
pub const SEQ: Preset = &[
    (LIST_INSERT, 20),
    (LIST_DELETE, 12),
    (LIST_PUT, 5),
    (SPLICE, 6),
    (SPLICE_TEXT, 18),
    (COMMIT, 8),
    (MERGE, 12),
    (INSERT_OBJECT, 3),
    (RECORD_HEADS, 3),
    (FORK, 1),
    (SAVE_LOAD, 1),
];

/// history with storage / incremental steps
pub const STORAGE: Preset = &[
    (PUT, 14),
    (COMMIT, 12),
    (MERGE, 10),
    (LIST_INSERT, 8),
    (SPLICE_TEXT, 8),
    (DELETE, 5),
    (LIST_DELETE, 5),
    (PUT_OBJECT, 4),
    (INCREMENT, 4),
    (MARK, 4),
    (SAVE_LOAD, 4),
    (APPLY, 3),
    (LOAD_INC, 4),
    (EMPTY_CHANGE, 1),
    (FORK, 2),
    (RECORD_HEADS, 2),
    (SPLICE, 2),
    (LIST_PUT, 2),
];

/// everything incl. isolation
pub const FULL: Preset = &[
    (PUT, 12),
    (COMMIT, 10),
    (MERGE, 10),
    (LIST_INSERT, 8),
    (SPLICE_TEXT, 8),
    (DELETE, 5),
    (LIST_DELETE, 5),
    (LIST_PUT, 4),
    (PUT_OBJECT, 4),
    (INSERT_OBJECT, 3),
    (INCREMENT, 4),
    (LIST_INCREMENT, 3),
    (MARK, 5),
    (UNMARK, 2),
    (SPLICE, 3),
    (BLOCK, 2),
    (FORK, 2),
    (SAVE_LOAD, 2),
    (EMPTY_CHANGE, 1),
    (ROLLBACK, 2),
    (APPLY, 3),
    (SYNC, 3),
    (RECORD_HEADS, 2),
    (UPDATE_TEXT, 2),
    (ISOLATE, 2),
    (INTEGRATE, 2),
    (SET_ACTOR, 1),
    (TEXT_PUT, 1),
    (LOAD_INC, 2),
];

pub fn step_strategy(preset: Preset) -> impl Strategy<Value = Step> {
    let total: u32 = preset.iter().map(|p| p.1).sum();
    (0..total, 0u8..5, any::<u16>(), any::<u16>(), any::<u16>(), any::<u16>(), -3i64..12).prop_map(
        move |(w, r, a, b, c, d, n)| {
            let mut acc = 0;
            let mut k = preset[0].0;
            for (kind, wt) in preset {
                acc += wt;
                if w < acc {
                    k = *kind;
                    break;
                }
            }
            Step { k, r, a, b, c, d, n }
        },
    )
}

pub fn program_strategy(preset: Preset, max_steps: usize, max_rep: u8, encs: u8) -> impl Strategy<Value = Program> {
    // registers with three or more concurrent writers need three or more replicas
    let min_rep = if preset == COUNTER { 3u8.min(max_rep.max(1)) } else { 1 };
    (0..encs.max(1), min_rep..=max_rep.max(1), prop::bool::weighted(0.8), prop::collection::vec(step_strategy(preset), 1..max_steps.max(2)))
        .prop_map(move |(enc, nrep, shared, steps)| Program { enc, nrep, shared, steps, nkeys: if preset == CONFLICT { 3 } else if preset == COUNTER { 2 } else { 0 }, flavor: (preset == COUNTER) as u8 })
}

/// Decode a program from raw fuzzer bytes (16 bytes per step after a 3-byte header).
pub fn program_from_bytes(data: &[u8], preset: Preset) -> Program {
    let total: u32 = preset.iter().map(|p| p.1).sum();
    let mut steps = vec![];
    let hdr = data.get(0..3).unwrap_or(&[0, 2, 1]);
    for ch in data.get(3..).unwrap_or(&[]).chunks_exact(16) {
        let w = (ch[0] as u32 * total) >> 8;
        let mut acc = 0;
        let mut k = preset[0].0;
        for (kind, wt) in preset {
            acc += wt;
            if w < acc {
                k = *kind;
                break;
            }
        }
        let u = |i: usize| u16::from_le_bytes([ch[i], ch[i + 1]]);
        steps.push(Step { k, r: ch[1] % 5, a: u(2), b: u(4), c: u(6), d: u(8), n: (ch[10] % 15) as i64 - 3 });
        if steps.len() >= 200 {
            break;
        }
    }
    Program { enc: hdr[0] % 4, nrep: 1 + hdr[1] % 4, shared: hdr[2] % 5 != 0, steps, nkeys: if preset == CONFLICT { 3 } else if preset == COUNTER { 2 } else { 0 }, flavor: (preset == COUNTER) as u8 }
}
