pub mod chunks;
pub mod driver;
pub mod graph;
pub mod interp;
pub mod obs;
pub mod program;
pub mod refdoc;
pub mod view;
