//! Materialised view + independent patch applier (DESIGN appendix B.2).
use super::driver::Failure;
use super::obs::{render_scalar, ONode, OVal};
use super::refdoc::width;
use automerge::{ObjType, Patch, PatchAction, Prop, ScalarValue, TextEncoding, Value};
use std::collections::BTreeMap;
use unicode_segmentation::UnicodeSegmentation;

#[derive(Clone, Debug, PartialEq)]
pub enum V {
    Map(BTreeMap<String, (V, bool)>),
    List(Vec<(V, bool)>),
    Text(String),
    Scalar(String),
    Counter(i64),
}

fn oval(v: &OVal) -> V {
    match v {
        OVal::Scalar(s) => V::Scalar(s.clone()),
        OVal::Counter(c) => V::Counter(*c),
        OVal::Obj(n) => from_obs(n),
    }
}

pub fn from_obs(n: &ONode) -> V {
    match n {
        ONode::Map(m) => V::Map(m.iter().filter(|(_, r)| !r.is_empty()).map(|(k, r)| (k.clone(), (oval(&r.last().unwrap().1), r.len() > 1))).collect()),
        ONode::List(l) => V::List(l.iter().filter(|r| !r.is_empty()).map(|r| (oval(&r.last().unwrap().1), r.len() > 1)).collect()),
        ONode::Text(t) => V::Text(t.text.clone()),
    }
}

fn newv(v: &Value<'_>) -> V {
    match v {
        Value::Object(ObjType::Map) | Value::Object(ObjType::Table) => V::Map(BTreeMap::new()),
        Value::Object(ObjType::List) => V::List(vec![]),
        Value::Object(ObjType::Text) => V::Text(String::new()),
        Value::Scalar(s) => match s.as_ref() {
            ScalarValue::Counter(c) => V::Counter(i64::from(c)),
            x => V::Scalar(render_scalar(x)),
        },
    }
}

fn units(v: &Value<'_>) -> String {
    match v {
        Value::Scalar(s) => match s.as_ref() {
            ScalarValue::Str(x) => x.to_string(),
            _ => "\u{fffc}".to_string(),
        },
        _ => "\u{fffc}".to_string(),
    }
}

/// byte offset of unit index `idx` in `s` under `enc`; None if out of range or inside a unit
pub fn unit_to_byte(s: &str, enc: TextEncoding, idx: usize) -> Option<usize> {
    match enc {
        TextEncoding::Utf8CodeUnit => {
            if idx <= s.len() && s.is_char_boundary(idx) {
                Some(idx)
            } else {
                None
            }
        }
        TextEncoding::UnicodeCodePoint => {
            if idx == s.chars().count() {
                Some(s.len())
            } else {
                s.char_indices().nth(idx).map(|(b, _)| b)
            }
        }
        TextEncoding::Utf16CodeUnit => {
            let mut u = 0;
            for (b, c) in s.char_indices() {
                if u == idx {
                    return Some(b);
                }
                u += c.len_utf16();
                if u > idx {
                    return None;
                }
            }
            if u == idx {
                Some(s.len())
            } else {
                None
            }
        }
        TextEncoding::GraphemeCluster => {
            let n = s.graphemes(true).count();
            if idx == n {
                Some(s.len())
            } else {
                s.grapheme_indices(true).nth(idx).map(|(b, _)| b)
            }
        }
    }
}

fn err(kind: &str, msg: String) -> Failure {
    Failure::new(format!("view:{kind}"), msg)
}

pub fn apply(root: &mut V, p: &Patch, enc: TextEncoding) -> Result<(), Failure> {
    let mut cur = root;
    for (_, prop) in &p.path {
        cur = match (cur, prop) {
            (V::Map(m), Prop::Map(k)) => &mut m.get_mut(k).ok_or_else(|| err("path", format!("path key {k:?} missing for {:?}", p)))?.0,
            (V::List(l), Prop::Seq(i)) => {
                let n = l.len();
                &mut l.get_mut(*i).ok_or_else(|| err("path", format!("path index {i} missing (len {n}) for {:?}", p)))?.0
            }
            (V::Text(_), Prop::Seq(_)) => return Ok(()), // inside a block: not part of the view
            (c, pr) => return Err(err("path", format!("bad path step {:?} on {:?} for {:?}", pr, c, p))),
        };
    }
    match (cur, &p.action) {
        (V::Map(m), PatchAction::PutMap { key, value, conflict }) => {
            m.insert(key.clone(), (newv(&value.0), *conflict));
        }
        (V::Map(m), PatchAction::DeleteMap { key }) => {
            // deleting an absent key is tolerated (every real consumer does): the final state is what is compared
            m.remove(key);
        }
        (V::Map(m), PatchAction::Increment { prop: Prop::Map(k), value }) => match m.get_mut(k) {
            Some((V::Counter(c), _)) => *c = c.wrapping_add(*value),
            x => return Err(err("increment-non-counter", format!("Increment on {:?}", x))),
        },
        (V::Map(m), PatchAction::Conflict { prop: Prop::Map(k) }) => {
            m.get_mut(k).ok_or_else(|| err("conflict-missing-key", format!("Conflict on absent key {k:?}")))?.1 = true;
        }
        (V::List(l), PatchAction::PutSeq { index, value, conflict }) => {
            let n = l.len();
            *l.get_mut(*index).ok_or_else(|| err("putseq-index", format!("PutSeq index {index} but len {n}")))? = (newv(&value.0), *conflict);
        }
        (V::List(l), PatchAction::Insert { index, values }) => {
            if *index > l.len() {
                return Err(err("insert-index", format!("Insert index {index} > len {}", l.len())));
            }
            for (n, v) in values.iter().enumerate() {
                l.insert(index + n, (newv(&v.0), v.2));
            }
        }
        (V::List(l), PatchAction::DeleteSeq { index, length }) => {
            if index + length > l.len() {
                return Err(err("deleteseq-range", format!("DeleteSeq {index}+{length} > len {}", l.len())));
            }
            l.drain(*index..index + length);
        }
        (V::List(l), PatchAction::Increment { prop: Prop::Seq(i), value }) => match l.get_mut(*i) {
            Some((V::Counter(c), _)) => *c = c.wrapping_add(*value),
            x => return Err(err("increment-non-counter", format!("Increment on {:?}", x))),
        },
        (V::List(l), PatchAction::Conflict { prop: Prop::Seq(i) }) => {
            l.get_mut(*i).ok_or_else(|| err("conflict-index", format!("Conflict on index {i}")))?.1 = true;
        }
        (V::Text(t), PatchAction::SpliceText { index, value, .. }) => {
            let b = unit_to_byte(t, enc, *index).ok_or_else(|| err("splice-index", format!("SpliceText index {index} is not a unit boundary of {:?} (width {})", t, width(enc, t))))?;
            t.insert_str(b, &value.make_string());
        }
        (V::Text(t), PatchAction::Insert { index, values }) => {
            let b = unit_to_byte(t, enc, *index).ok_or_else(|| err("insert-index", format!("Insert index {index} is not a unit boundary of {:?}", t)))?;
            let s: String = values.iter().map(|v| units(&v.0)).collect();
            t.insert_str(b, &s);
        }
        (V::Text(t), PatchAction::PutSeq { index, value, .. }) => {
            // replaces the element starting at index: the patch does not say how wide it was; the element is
            // one character (or cluster) of the view's string at that position
            let b = unit_to_byte(t, enc, *index).ok_or_else(|| err("putseq-index", format!("PutSeq index {index} is not a unit boundary of {:?}", t)))?;
            let e = unit_to_byte(t, enc, *index + 1).ok_or_else(|| err("putseq-index", format!("PutSeq index {index}+1 is not a unit boundary of {:?}", t)))?;
            t.replace_range(b..e, &units(&value.0));
        }
        (V::Text(t), PatchAction::DeleteSeq { index, length }) => {
            let b = unit_to_byte(t, enc, *index).ok_or_else(|| err("deleteseq-range", format!("DeleteSeq index {index} is not a unit boundary of {:?}", t)))?;
            let e = unit_to_byte(t, enc, index + length).ok_or_else(|| err("deleteseq-range", format!("DeleteSeq end {} is not a unit boundary of {:?}", index + length, t)))?;
            t.replace_range(b..e, "");
        }
        (V::Text(_), PatchAction::Mark { .. }) | (V::Text(_), PatchAction::Conflict { .. }) => {}
        (c, a) => return Err(err("action-on-wrong-type", format!("action {:?} on {:?}", a, c))),
    }
    Ok(())
}

pub fn first_diff(a: &V, b: &V, path: &str) -> Option<(String, String)> {
    match (a, b) {
        (V::Map(x), V::Map(y)) => {
            let kx: Vec<_> = x.keys().collect();
            let ky: Vec<_> = y.keys().collect();
            if kx != ky {
                return Some(("keys".into(), format!("{path}: keys {:?} vs {:?}", kx, ky)));
            }
            for (k, (vx, cx)) in x {
                let (vy, cy) = &y[k];
                if let Some(d) = first_diff(vx, vy, &format!("{path}/{k:?}")) {
                    return Some(d);
                }
                if cx != cy {
                    return Some(("conflict-flag".into(), format!("{path}/{k:?}: conflict flag {cx} vs {cy}")));
                }
            }
            None
        }
        (V::List(x), V::List(y)) => {
            if x.len() != y.len() {
                return Some(("list-length".into(), format!("{path}: length {} vs {}", x.len(), y.len())));
            }
            for (i, ((vx, cx), (vy, cy))) in x.iter().zip(y.iter()).enumerate() {
                if let Some(d) = first_diff(vx, vy, &format!("{path}[{i}]")) {
                    return Some(d);
                }
                if cx != cy {
                    return Some(("conflict-flag".into(), format!("{path}[{i}]: conflict flag {cx} vs {cy}")));
                }
            }
            None
        }
        (V::Text(x), V::Text(y)) if x != y => Some(("text".into(), format!("{path}: text {:?} vs {:?}", x, y))),
        (V::Counter(x), V::Counter(y)) if x != y => Some(("counter".into(), format!("{path}: counter {x} vs {y}"))),
        (V::Scalar(x), V::Scalar(y)) if x != y => Some(("value".into(), format!("{path}: {x} vs {y}"))),
        (x, y) if std::mem::discriminant(x) != std::mem::discriminant(y) => Some(("type".into(), format!("{path}: {:?} vs {:?}", x, y))),
        _ => None,
    }
}

pub fn describe_patches(ps: &[Patch]) -> Vec<String> {
    ps.iter().map(|p| format!("{:?} {:?}", p.path.iter().map(|x| x.1.clone()).collect::<Vec<_>>(), p.action)).collect()
}
