#!/bin/bash
# usage: seed_setup.sh <ID>...   creates /tmp/seed/<ID>/{repo (git worktree), target (copy of build cache), PROPERTY.json, out/}
for id in "$@"; do
  d=/tmp/seed/$id
  [ -d $d/repo ] && continue
  mkdir -p $d/out
  git -C /repo worktree add --detach $d/repo HEAD -q || exit 1
  python3 - "$id" > $d/PROPERTY.json <<'PY'
import json,sys
for l in open('/verif/properties.jsonl'):
    p=json.loads(l)
    if p['id']==sys.argv[1]:
        print(json.dumps(p,indent=1))
PY
  cp -r /repo/rust/target $d/target
done
