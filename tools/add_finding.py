#!/usr/bin/env python3
# usage: add_finding.py <property> <signature> <status> <commit-or-> <replay> <what>
import json,sys
prop,sig,status,commit,replay,what=sys.argv[1:7]
k=json.load(open('/verif/known_findings.json'))
e={"property":prop,"signature":sig,"status":status,"replay":replay,"what":(f"fixed: property={prop} {commit} {what}" if status=="fixed" else what)}
if commit!='-': e["commit"]=commit
k.append(e)
json.dump(k,open('/verif/known_findings.json','w'),indent=2)
