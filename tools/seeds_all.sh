#!/bin/bash
# usage: seeds_all.sh <seed>...   runs every quick check for each seed; prints only non-silent results
cd /verif
ids=$(python3 -c "import json;print(' '.join(c['property_id'] for c in json.load(open('/verif/MANIFEST.json'))['checks']))")
for seed in "$@"; do
  for id in $ids; do
    out=$(VERIF_OUT=/tmp/seeds_out VERIF_SEED=$seed ./check $id quick 2>&1); rc=$?
    line=$(echo "$out" | grep -a " quick:" | cut -c1-120)
    if [ $rc -ne 0 ]; then echo "seed=$seed $id rc=$rc $line"; echo "$out" | grep -a "VIOLATION\|signature:\|infrastructure" | cut -c1-220 | head -6; else echo "seed=$seed $id ok $line"; fi
  done
done
