#!/bin/bash
# usage: tools/run_all.sh [quick|thorough] [ids...]   — runs the registered checks, prints one line each
tier=${1:-quick}; shift
ids="$@"
[ -z "$ids" ] && ids=$(python3 -c "import json;print(' '.join(c['property_id'] for c in json.load(open('/verif/MANIFEST.json'))['checks']))")
for id in $ids; do
  s=$(date +%s)
  out=$(./check $id $tier 2>&1); rc=$?
  e=$(date +%s)
  echo "$id rc=$rc $((e-s))s $(echo "$out" | grep -E "^$id (quick|thorough)" | cut -c1-120)"
  echo "$out" | grep -E "^VIOLATION|^  signature|^infrastructure" | head -6
done
