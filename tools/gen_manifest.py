#!/usr/bin/env python3
"""Generate /verif/MANIFEST.json from the table below (single source of truth for the interface)."""
import json, os, subprocess

ROOT = os.path.dirname(os.path.dirname(os.path.abspath(__file__)))

# id -> (level, technique, level text, level note, design ref)
CHECKS = {
    "C01": ("exploration", "proptest stateful multi-replica programs; differential over 8 ingestion paths vs one-by-one topological apply",
            "Generated multi-replica histories; every ingestion path must produce the same full ReadDoc observation (with op ids) as an independently built reference document. Exploration is the right level: the quantifier is over unbounded histories and delivery orders.",
            "Reference document = one-by-one topological apply_changes (different code path from all compared ones). Not exhaustive.", "3/C01"),
    "C02": ("exploration", "proptest histories vs independent reference interpreter (RefDoc) of the decoded op set",
            "Model-based: the document's full observable state (current and historical) must equal an independent from-scratch op-based CRDT reading of Change::decode() output.",
            "Trusted: Change::decode() (cross-checked by C10/C18); unicode-segmentation for grapheme widths.", "3/C02, 2.4, B.1"),
    "C04": ("exploration", "proptest stateful programs; invariant after every step against an independent change graph",
            "Generated programs (commits, empty changes, merges, forks, actor switches, isolation, loads); each created change's seq/start_op/deps and every replica's heads after every step are checked against a harness-side graph.",
            "Committed state observed on a clone with the open transaction rolled back. empty_change under isolate() not exercised.", "3/C04"),
    "C10": ("exploration", "proptest histories; byte-identity of retrieved changes vs bytes recorded at creation, SHA-256 recomputed, set/order oracle from harness graph",
            "Every retrieval API must return byte-identical changes at later points (after edits, merges, forks, save/load); get_changes(have) compared with graph ancestors.",
            "Bytes recorded through get_last_local_change immediately after each commit are the reference.", "3/C10"),
    "C11": ("exploration", "proptest histories; round-trip differential load(save(D)) over deflate x retain_orphans x encodings, byte-identical re-save",
            "Heads, change bytes, full observation at all recorded heads, pending queue and re-saved bytes compared between a document and its reloaded image.",
            "Observation through ReadDoc only; queue compared through get_missing_deps and release behaviour.", "3/C11"),
    "C12": ("exploration", "proptest stateful writer/reader model over save, save_incremental, save_after, load_incremental in order / shuffled / repeated",
            "Append-only file model: full save plus later pieces must load to the writer's state; readers fed pieces in any order converge; re-feeding is a no-op.",
            "A new full save closes the previous file (incremental cursor restarts).", "3/C12"),
    "C05": ("exploration", "proptest histories + generated delivery schedules; invariant after every delivery against harness-side causal closure",
            "Out-of-order, partial and mixed-path delivery (apply_changes, load_incremental, crafted sync message): heads, applied set, full state and get_missing_deps are compared after every delivery with the largest causally closed subset computed by the harness.",
            "Reference state = fresh document given the closed subset topologically.", "3/C05"),
    "C06": ("exploration", "proptest stateful fault scenarios (duplicate actor/seq branches, invalid transaction calls, corrupted incremental bytes); snapshot-equality and twin-run oracle",
            "Every call that returns Err must leave heads, full observation, retained-orphan save bytes, get_missing_deps and pending_ops unchanged; a twin that skips failing calls must end equal; final load(save()) equal.",
            "One known finding (DuplicateSeqNumber error path prunes the queue) is excluded by signature and counted.", "3/C06"),
    "C38": ("exploration", "proptest stateful scenario: two branches of one actor offered through every ingestion path; invariant after every step",
            "(actor, seq) uniqueness and contiguity, readability and save/load consistency after every delivery, whatever it returned.",
            "Which branch wins is not asserted.", "3/C38"),
    "C07": ("exploration", "proptest histories; differential of every *_at read and fork_at against a fresh document fed exactly ancestors(h)",
            "Historical reads (observation + extended read battery incl. ranges, values, hydrate, parents, iter, get_marks, cursors) on the merged document at recorded heads must equal plain reads on an independently built document holding exactly those ancestors; fork_at must produce that document.",
            "F' built by one-by-one topological apply of the harness-computed ancestor set.", "3/C07"),
    "C08": ("exploration", "proptest histories; metamorphic patch application: View(h1).apply(diff(h1,h2)) == View(h2) with an independent applier, cross-checked with hydrate::apply_patches",
            "Forward, backward and sideways head pairs, whole document and diff_obj (recursive / shallow).",
            "Marks are not part of the view. Objects for diff_obj are restricted to those reachable through winning values at both ends.", "3/C08, 2.6, B.2"),
    "C09": ("exploration", "proptest stateful programs; a materialised view is kept equal to the document by applying incremental patches after every batch (AutoCommit diff cursor and explicit PatchLog styles)",
            "All mutating paths: local edits, commit, rollback, apply_changes, merge, load_incremental, sync receive, load with patch log, isolate/integrate.",
            "One PatchLog per operation batch (documented use). One known finding (silent conflict resolution by an equal put) excluded by signature.", "3/C09"),
    "C28": ("exploration", "proptest histories + generated transactions rolled back; twin-document equality (state, heads, save bytes, stats, byte-identical follow-up change)",
            "Manual transactions (plain, transaction_at, with active patch log) of valid and invalid edits by existing or brand-new actors.",
            "Twin = clone taken before the transaction.", "3/C28"),
    "C31": ("exploration", "proptest histories; anonymize run several times per case; harness-side change-graph/op isomorphism and per-heads shape comparison",
            "Changes matched by (actor rank, seq); op shapes, key/mark-name bijections, object types, lengths, text widths, conflict structure at every recorded heads; reload is clean.",
            "anonymize seeds itself from the OS: the oracle must hold for every seed. GraphemeCluster width loss is a known finding.", "3/C31"),
    "C32": ("exploration", "proptest histories; AutoSerde serialized into a strict serde Serializer enforcing announced lengths + serde_json; compared with the winners-only ReadDoc image",
            "Strict tree equals expected image; announced map/seq lengths are enforced; JSON output equals the strict tree.",
            "serialize_seq(None) is legal serde and only counted.", "3/C32"),
    "C33": ("exploration", "proptest recursive JSON generator; differential round-trip through the real automerge import/export subprocesses with kind-sensitive comparison",
            "export(import(x)) == x for keys, arrays, strings, exact integers over i64/u64 and floats by value and kind.",
            "CLI built from /repo's working tree into /verif/target-cli at start of each run.", "3/C33"),
    "C20": ("exploration", "proptest schedules over a network simulator (encoded messages on FIFO links) with hook-forced Bloom false positives; bounded-liveness and equality oracle after a fair closing phase",
            "Two peers with arbitrary generated histories, any interleaving of edit/generate/deliver; within a round bound linear in history size both go quiet with equal heads and state.",
            "Bounded liveness: a protocol needing more than 20+4|changes|+4|peers|^2 fair rounds would be reported. Forced false positives come from the automerge_verif hook.", "3/C20, 2.9"),
    "C21": ("exploration", "proptest schedules over the network simulator with disconnects dropping in-flight messages and reconnection with fresh or encode/decode-persisted sync state",
            "3-5 peers, topology changes, concurrent edits, optional forced false positives; every connected component converges and goes quiet within the round bound.",
            "Both ends of a dropped link replace their state (documented contract).", "3/C21, 2.9"),
    "C22": ("exploration", "proptest schedules with read-only flags set at construction or toggled at generated points, messages in flight at toggles, optional forced false positives; snapshot invariant on every read-only receive",
            "A read-only receive never changes heads or saved bytes; the writer still gets the reader's changes; switching back converges.",
            "Two fixed defects were found here (reset with empty heads; silence after SYNC_RESET under Bloom false positives).", "3/C22, 2.9"),
    "C36": ("exploration", "proptest call sequences resolved into a line program; differential: ASan+UBSan+LSan C driver subprocess vs the same operations on AutoCommit; thorough adds a valgrind sample",
            "Generated sequences over document, map, list, text, mark, change, cursor, sync and result/item calls; every result read completely through the item API with byte spans copied out and freed at generated later points; oracle = sanitizer-clean driver AND transcript equal to the Rust API's.",
            "Driver links the debug build of automerge-c. Error message texts are not compared. Invalid handles are never generated.", "3/C36, 2.11"),
    "C19": ("exploration", "proptest histories and sync sessions; encode/decode round-trip and cross-replica resolution oracle",
            "Object ids, cursors, actor ids, change hashes, sync messages and states round-trip; decoded ids/cursors resolve to the same object/element in a document with a different actor table.",
            "ExId equality ignores the actor-index hint by design.", "3/C19"),
    "C23": ("exploration", "proptest hash sets and generated/degenerate filter parameters; membership and no-panic oracle",
            "No false negatives before and after encode/decode; every decodable filter (incl. zero bits per entry, zero/huge probes) answers contains_hash with a bool.",
            "Resource behaviour of hostile parameters is C17's subject (the fix bounds probes by the number of bits).", "3/C23"),
    "C24": ("exploration", "proptest text programs under all four encodings; per-step invariant battery on lengths, spans, element boundaries, cursors and marks",
            "length == width(text), spans concatenate to text, element offsets on character boundaries, cursor round-trips, marks()/get_marks()/spans() agree — after every step and at historical heads.",
            "Mid-character indexes not asserted. Grapheme clusters spanning elements are a known finding.", "3/C24"),
    "C25": ("exploration", "proptest text/mark programs vs the Peritext reading of the decoded op set (RefDoc) + expand-boundary metamorphic probes",
            "Per-position marking equals the independent reading on every replica, merged, reloaded and historical; insertion at a lone mark boundary is covered iff the expand flag says so.",
            "Coinciding boundaries of several marks are not probed (order-dependent by design).", "3/C25"),
    "C26": ("exploration", "proptest list/text programs; held cursors resolved everywhere and compared with an independent insertion-chain oracle (RefDoc)",
            "Both move modes, deleted and overwritten elements, other replicas, historical heads, uncovered ops must error.",
            "Cursors taken on ops that are later rolled back are not held.", "3/C26"),
    "C34": ("exploration", "proptest stateful edit sequences over 31 hexane column types vs a Vec model with the full read API compared after every edit",
            "Model-based check of Column/PrefixColumn/DeltaColumn/RawColumn under splice/insert/remove/push/truncate/clear/splice_runs/edit cursors/copy_ranges with small slab budgets.",
            "Documented preconditions respected. Three known findings (delta find_by_value at the domain top, find_by_value(None), transient aggregate overflow) are steered away from and counted.", "3/C34"),
    "C35": ("exploration", "proptest save/load round trips of C34-built columns + random bytes, hostile run streams and structure-aware mutations offered to 31 load entry points",
            "load(save(col)) equal; load of arbitrary bytes returns Ok/Err without panic; whatever loads is internally consistent, valid UTF-8 and re-saves to loadable bytes.",
            "Verdict profile has overflow checks on. One known finding (slab-budget-dependent delta load).", "3/C35, 2.7"),
    "C03": ("exploration", "proptest call sequences with ~22% invalid calls on a conflicted prior state; metamorphic per-call sequential model (documented effect applied to the observation before == observation after, everything else unchanged)",
            "Automerge::transaction() and AutoCommit, all four encodings; Err => no change to state or pending_ops; commit shows what the transaction showed.",
            "Mid-character text indexes, marks of freshly inserted text and GraphemeCluster lengths are not asserted here.", "3/C03, 2.5, B.3"),
    "C29": ("exploration", "proptest histories + generated edits under isolate()/transaction_at() vs the same edits on a plain document built from ancestors(heads); deps and integrate oracles",
            "Id-free observation equality after every edit, deps of every isolated commit, and equality with twin+isolated changes after integrate.",
            "One known finding (text inserted next to ops hidden by the scope lands differently relative to mark boundaries) excluded by signature.", "3/C29"),
    "C30": ("exploration", "proptest histories with shifting actor tables; remembered-id vs natively-discovered-id differential in every replica, merged and reloaded document",
            "Reads and edits through old ids equal those through fresh ids; absent objects give errors/empties.",
            "Absence is decided by the harness from the decoded make ops.", "3/C30"),
    "C18": ("exploration", "proptest histories; round-trip oracles over raw/compressed change bytes, expanded changes and bundles; bundle load vs apply differential",
            "from_bytes(raw)/from_bytes(bytes()) equal change and hash; Change::from(decode()) same bytes; modified expanded changes survive; bundles of generated subsets give byte-identical changes; loading a bundle equals applying its changes.",
            "An empty message and no message share one encoding and are not distinguished.", "3/C18"),
    "C27": ("exploration", "proptest prior states x generated targets (strings, nested hydrate values, span lists); target-equality and bulk-vs-call-by-call differential",
            "update_text, update_object, update_spans, batch_create_object, init_root_from_hydrate, init_from_hydrate, splice with nested values.",
            "One known finding (texts holding multi-character elements) excluded by signature.", "3/C27"),
    "C40": ("exploration", "proptest histories with strings in maps/lists; parallel walk of the original and the migrated observation",
            "Registers with visible strings become one text object holding the highest-id string; everything else identical; one added change iff strings exist.",
            "Strings inside deleted objects are not visible (fixed defect).", "3/C40"),
    "C13": ("fault_enumeration", "every truncation point of generated writer files (save + incremental pieces) enumerated; prefix oracle against the per-chunk images",
            "For every cut of a generated file: load(Error) fails or returns exactly the whole file's document; load(Ignore) returns the document of the complete chunks before the cut; no panic (sandboxed worker).",
            "Chunk boundaries come from the harness's own container parser.", "3/C13"),
    "C14": ("fault_enumeration", "single-bit / single-byte faults enumerated over generated files (checksums left alone) plus sampled multi-byte faults",
            "A corrupted file either fails to load or loads to a document equal to the original, never to a different one; bundles and compressed chunks included.",
            "Faults in the regions a checksum does not cover (trailing bytes) are classified, not asserted.", "3/C14"),
    "C15": ("exploration", "proptest structure-aware mutation of generated valid encodings (checksums recomputed, heads re-derived) + raw random inputs, run in a sandboxed worker process for 13 decoder entry points",
            "Panics, aborts, stack overflows, allocation-cap and CPU-limit hits of load, load_incremental, Change::from_bytes, Bundle, sync Message/State, BloomFilter, Cursor (bytes, str), ObjId, ActorId/ChangeHash, import/import_obj, rescue and receive_sync_message of a decoded message are violations.",
            "Known findings (semantically inconsistent changes panic in BatchApply; rescue hydrates accepted malformed documents; run-length bombs) are excluded by call-site signature and counted; panics while reading an accepted document are C16's subject.", "3/C15"),
    "C16": ("exploration", "proptest structure-aware mutation of generated documents with recomputed checksums and re-derived heads; if load accepts, full read battery + edit + merge + save/load round trip in the sandbox",
            "An accepted mutated document must answer the whole read battery consistently at current and historical heads, accept edits and a merge, and save to bytes that load to an equal document.",
            "The property is broadly violated on the pinned tree (load does not validate op sets semantically): four known findings keyed on the kind of misbehaviour suppress most of the search space; the replay tier keeps one strict reproduction of each. See DESIGN.md section 4.", "3/C16"),
    "C17": ("fault_enumeration", "length, count and parameter fields of generated valid encodings set to extreme values (LEB128 maxima, run lengths near 2^31..2^64, bloom parameters), counting allocator + CPU clock in a sandboxed worker",
            "Per input of n bytes: one allocation request and the live total stay below 16 MiB + 64 KiB*n, CPU below 2 s (4 s hard limit in the worker); a refusal aborts the worker deterministically and names the requesting library function.",
            "Budget is a generous linear bound; known run-length amplification sites are excluded by the requesting function.", "3/C17"),
    "C39": ("exploration", "proptest: invalid UTF-8 written over every string site (keys, values, mark names, messages, actor-independent strings) of generated documents, changes, bundles and sync messages, checksums recomputed",
            "Every string handed out by a document / change that was accepted (keys, text, values, mark names and values, spans, messages, hydrate) must be valid UTF-8; the input is rejected or repaired.",
            "String sites are located by the harness's column parser; panics are left to C15/C16.", "3/C39"),
    "C37": ("exploration", "proptest multi-replica history + generated abuse-call sequence (60 call kinds, 121 entry points) with argument pools of valid, stale, foreign, wrong-kind and out-of-range values; panic-catching oracle",
            "No public call panics whatever its arguments; patches produced by diff / make_patches are accepted by hydrate::Value::apply_patches.",
            "Debug-assertion + overflow-check build, so arithmetic overflow counts; #[doc(hidden)] calls not exercised; known findings (counter overflow, extreme commit time, NaN mark value, one fork_at panic) are avoided by construction and counted as excluded:*.", "3/C37"),
}

PENDING = {}

def main():
    props = [json.loads(l) for l in open(os.path.join(ROOT, "properties.jsonl"))]
    ids = [p["id"] for p in props]
    hooks_commits = subprocess.run(["git", "-C", "/repo", "log", "--format=%H", "--grep=verif hooks"], capture_output=True, text=True).stdout.split()
    checks = []
    for i in ids:
        if i in CHECKS:
            level, tech, text, note, ref = CHECKS[i]
            checks.append({
                "property_id": i,
                "quick_cmd": f"./check {i} quick",
                "thorough_cmd": f"./check {i} thorough",
                "evidence_file": f"/verif/evidence/{i}.json",
                "replay_cmd_template": f"./check {i} --replay {{path}}",
                "engine": "amverif",
                "level_claimed": {"category": level, "text": text, "design_ref": f"DESIGN.md section {ref}"},
                "level_note": note,
                "technique": tech,
            })
    na = []
    for i in ids:
        if i not in CHECKS:
            na.append({"property_id": i, "reason": PENDING.get(i, "check not built yet (work in progress; see DESIGN.md section 3 for the planned generated-input oracle)")})
    m = {
        "version": 1,
        "setup_cmd": "cd /verif/harness && cargo build --offline --profile verif --bin amverif && (cd /repo/rust && CARGO_TARGET_DIR=/verif/target-cli cargo build --offline -p automerge-cli) && /verif/cdriver/build.sh /verif/target-c",
        "hooks": {
            "guard": "--cfg automerge_verif",
            "enable": "RUSTFLAGS='--cfg automerge_verif' via /verif/harness/.cargo/config.toml (build.rustflags); /repo/rust/automerge is a path dependency of the harness",
            "baseline_off_cmd": "cd /repo/rust && cargo nextest run --workspace --no-fail-fast --offline --test-threads 8 || cargo test --workspace --no-fail-fast --offline",
            "source_commits": hooks_commits,
            "add_only": True,
        },
        "engines": [
            {"name": "amverif", "path": "/verif/harness", "serves_properties": sorted(CHECKS.keys()),
             "kind_free_text": "Rust harness: seeded proptest TestRunner sharded over 16 threads, fixed-width step DSL + interpreter over AutoCommit replicas, ReadDoc observation, independent reference interpreter, patch applier, byte mutators; shrinks failures to JSON replay files"},
        ],
        "checks": checks,
        "not_applicable": na,
        "notes": "All checks: ./check <ID> quick|thorough; exit 0 ok, 1 VIOLATION, 2 inconclusive/infrastructure. VERIF_SEED selects the proptest seeds (default 1). known_findings.json lists fixed and known findings; regress/<ID>/ holds replay-tier inputs.",
    }
    json.dump(m, open(os.path.join(ROOT, "MANIFEST.json"), "w"), indent=1)
    print(f"MANIFEST.json: {len(checks)} checks, {len(na)} not_applicable")

if __name__ == "__main__":
    main()
