#!/bin/bash
# For every repaired defect (fixed entries of known_findings.json): revert the fix in a scratch copy and run the
# quick tier of the property that found it. Results: /verif/seeded/reverts/results.tsv
cd /verif
python3 - <<'PY' > /tmp/revert_list-${LANE:-0}.txt
import json
seen=set()
for e in json.load(open('/verif/known_findings.json')):
    if e['status']=='fixed' and e.get('commit'):
        for c in e['commit'].split('+'):
            if (c,e['property']) not in seen:
                seen.add((c,e['property'])); print(c,e['property'])
PY
n=0
while read commit prop; do
  n=$((n+1))
  [ -n "${LANES:-}" ] && [ $((n % LANES)) -ne ${LANE:-0} ] && continue
  grep -q "^$commit	$prop	" seeded/reverts/results.tsv 2>/dev/null && continue
  git -C /repo diff $commit $commit^ -- rust > /tmp/revert-$commit-$prop.diff
  out=$(nice -n 10 tools/mutant.sh /tmp/revert-$commit-$prop.diff $prop 2>&1)
  res=$(echo "$out" | grep -o "MUTANT-RESULT.*\|PATCH-FAILED\|BUILD-FAILED" | head -1)
  sig=$(echo "$out" | grep -m1 "signature:" | sed 's/^ *signature: //' | cut -c1-160)
  printf "%s\t%s\t%s\t%s\t%s\n" "$commit" "$prop" "$res" "$sig" "$(git -C /repo log --format=%s -1 $commit | cut -c1-100)" >> seeded/reverts/results.tsv
  rm -f /tmp/revert-$commit-$prop.diff
done < /tmp/revert_list-${LANE:-0}.txt

