#!/usr/bin/env python3
# regenerates the findings tables of DESIGN.md (between the BEGIN/END markers) from known_findings.json
import json,re,subprocess
k=json.load(open('/verif/known_findings.json'))
def esc(s): return s.replace('|','\\|').replace('\n',' ')
fixed=[e for e in k if e['status']=='fixed']
known=[e for e in k if e['status']=='known']
out=[]
out.append(f"**Repaired in /repo ({len(set(e.get('commit') for e in fixed))} `fix:` commits, {len(fixed)} recorded signatures).** Each row: property whose check first reported it, commit, what failed.\n")
out.append("| Property | Commit | What failed (input / call site) |\n|---|---|---|")
seen=set()
for e in fixed:
    w=re.sub(r'^fixed: property=\S+ \S+ ','',e['what'])
    key=(e.get('commit'),w)
    if key in seen: continue
    seen.add(key)
    out.append(f"| {e['property']} | `{e.get('commit','?')}` | {esc(w)} |")
out.append("")
out.append(f"**Known findings (recorded, not repaired: {len(known)} signatures).** The check prints `KNOWN-FINDING` for each and keeps searching with the signature excluded.\n")
out.append("| Property | Signature | What fails | Replay |\n|---|---|---|---|")
for e in known:
    out.append(f"| {e['property']} | `{esc(e['signature'])}` | {esc(e['what'])} | `{e.get('replay','')}` |")
text="\n".join(out)
d=open('/verif/DESIGN.md').read()
b,e_='<!-- BEGIN FINDINGS -->','<!-- END FINDINGS -->'
if b in d:
    d=d[:d.index(b)+len(b)]+"\n"+text+"\n"+d[d.index(e_):]
    open('/verif/DESIGN.md','w').write(d)
    print('updated',len(fixed),len(known))
else:
    print(text[:3000])
