#!/usr/bin/env python3
# usage: commit_hunks.py list | commit_hunks.py commit "<msg>" file:idx,idx file2:all ...
# splits `git -C /repo diff` into hunks so that one working tree with several repairs becomes several commits
import subprocess,sys,re,tempfile
def hunks(path):
    d=subprocess.run(['git','-C','/repo','diff','-U3','--',path],capture_output=True,text=True).stdout
    if not d: return None,[]
    parts=re.split(r'(?m)^(?=@@ )',d)
    return parts[0],parts[1:]
files=subprocess.run(['git','-C','/repo','diff','--name-only'],capture_output=True,text=True).stdout.split()
if sys.argv[1]=='list':
    for f in files:
        h,hs=hunks(f)
        for i,x in enumerate(hs):
            lines=[l for l in x.splitlines()[1:] if l.startswith('+') or l.startswith('-')]
            print(f"{f}:{i}  {x.splitlines()[0][:60]}  | {lines[0][:90] if lines else ''}")
else:
    msg=sys.argv[2]
    patch=''
    for spec in sys.argv[3:]:
        f,idx=spec.split(':')
        h,hs=hunks(f)
        sel=range(len(hs)) if idx=='all' else [int(i) for i in idx.split(',')]
        patch+=h+''.join(hs[i] for i in sel)
    with tempfile.NamedTemporaryFile('w',suffix='.diff',delete=False) as t:
        t.write(patch); name=t.name
    r=subprocess.run(['git','-C','/repo','apply','--cached','--recount',name],capture_output=True,text=True)
    if r.returncode: print(r.stderr); sys.exit(1)
    print(subprocess.run(['git','-C','/repo','commit','-q','-m',msg],capture_output=True,text=True))
    print(subprocess.run(['git','-C','/repo','log','--oneline','-1'],capture_output=True,text=True).stdout)
