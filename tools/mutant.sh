#!/bin/bash
# usage: tools/mutant.sh <patch.diff> <ID> [<ID>...]      (env TIER=quick|thorough, KEEP=1 keeps the scratch dir)
# Applies a patch (paths relative to /repo root) to a scratch copy of /repo/rust, builds a scratch copy of the
# harness against it and runs the quick tier of the given properties there. /repo and /verif are not touched.
set -u
patch=$(readlink -f "$1"); shift
n=$$
root=/tmp/mut-$n
mkdir -p $root/repo
rsync -a --exclude target --exclude node_modules /repo/rust $root/repo/ || exit 2
rsync -a /verif/harness $root/ || exit 2
sed -i "s#/repo/rust/#$root/repo/rust/#g" $root/harness/Cargo.toml
sed -i "s#^target-dir.*#target-dir = \"$root/target\"#" $root/harness/.cargo/config.toml
if ! patch -s -p1 -d $root/repo < "$patch"; then echo "PATCH-FAILED"; rm -rf $root; exit 2; fi
cp -al /verif/target $root/target 2>/dev/null
# hard links share the inode of cargo's lock file: without this every scratch build serialises on /verif/target's lock
find $root/target -name ".cargo-lock" -delete 2>/dev/null
( cd $root/harness && cargo build --offline --profile verif --bin amverif 2>&1 | grep -E "^error" -A 8 | head -40 )
if [ ! -x $root/target/verif/amverif ]; then echo "BUILD-FAILED"; rm -rf $root; exit 2; fi
rc=0
for id in "$@"; do
  if [ -n "${REPLAY:-}" ]; then
    out=$(cd /verif && VERIF_OUT=$root/out timeout 1800 $root/target/verif/amverif $id --replay "$REPLAY" 2>&1); r=$?
    echo "$out" | head -5 | cut -c1-300
  else
    out=$(cd /verif && VERIF_OUT=$root/out timeout 1800 $root/target/verif/amverif $id ${TIER:-quick} 2>&1); r=$?
  fi
  echo "$out" | grep -E "^(VIOLATION|KNOWN-FINDING|  signature|$id )" | head -12
  echo "MUTANT-RESULT $id exit=$r"
  [ $r -eq 1 ] || rc=1
done
[ "${KEEP:-0}" = 1 ] || rm -rf $root
exit $rc
