#!/bin/bash
# usage: seed_collect.sh <ID> [extra check IDs...]
# runs the checks against /verif/seeded/<ID>/patch*.diff in scratch copies; result in seeded/<ID>/result.txt
id=$1; shift
dst=/verif/seeded/$id
[ -f $dst/patch.diff ] || { echo "no patch for $id"; exit 1; }
: > $dst/result.txt
for p in $dst/patch.diff $dst/patch2.diff; do
  [ -f $p ] || continue
  echo "== $(basename $p) checks: $id $*" >> $dst/result.txt
  /verif/tools/mutant.sh $p $id "$@" 2>&1 | grep -a "MUTANT-RESULT\|signature\|PATCH-FAILED\|BUILD-FAILED" | cut -c1-300 >> $dst/result.txt
done
cat $dst/result.txt
