#!/bin/bash
# usage: SLOT=<slot> seed_collect.sh <ID> [extra check IDs...]   (SLOT defaults to ID)
# copies the sub-agent's deliverables to /verif/seeded/<ID>/, runs the checks against the patch in a scratch copy
id=$1; shift
src=/tmp/seed/${SLOT:-$id}/out; dst=/verif/seeded/$id
mkdir -p $dst
cp $src/patch.diff $src/meta.json $dst/ 2>/dev/null
cp $src/demo.rs $src/DEMO.md $dst/ 2>/dev/null
cp $src/patch2.diff $src/demo2.rs $dst/ 2>/dev/null
[ -f $dst/patch.diff ] || { echo "no patch for $id"; exit 1; }
for p in $dst/patch.diff $dst/patch2.diff; do
  [ -f $p ] || continue
  echo "== $p" >> $dst/result.txt
  /verif/tools/mutant.sh $p $id "$@" 2>&1 | grep -a "MUTANT-RESULT\|signature\|PATCH-FAILED\|BUILD-FAILED" | cut -c1-300 >> $dst/result.txt
done
cat $dst/result.txt
