#!/usr/bin/env python3
import json,os,re,glob
m=json.load(open('/verif/MANIFEST.json'))
k=json.load(open('/verif/known_findings.json'))
rows=["| Property | Level | Quick: evaluations / distinct non-trivial | Known findings | Repaired defects first reported by it | Seeded changes caught / given |","|---|---|---|---|---|---|"]
for c in m['checks']:
    i=c['property_id']
    ev={}
    try: ev=json.load(open(f'/verif/evidence/{i}.json'))
    except Exception: pass
    def g(*names):
        for n in names:
            if n in ev: return ev[n]
        return '?'
    evals=g('evaluations','cases','n_evaluations'); nt=g('distinct_nontrivial','nontrivial','non_trivial')
    if isinstance(ev.get('coverage'),dict):
        evals=ev['coverage'].get('evaluations',evals); nt=ev['coverage'].get('distinct_nontrivial',ev['coverage'].get('nontrivial',nt))
    known=sum(1 for e in k if e['property']==i and e['status']=='known')
    fixed=len(set(e.get('commit') for e in k if e['property']==i and e['status']=='fixed'))
    caught=given=0
    p=f'/verif/seeded/{i}/result.txt'
    if os.path.exists(p):
        for b in re.split(r'(?m)^== ',open(p).read())[1:]:
            given+=1
            if re.search(r'MUTANT-RESULT \S+ exit=1',b): caught+=1
    rows.append(f"| {i} | {c['level_claimed']['category']} | {evals} / {nt} | {known} | {fixed} | {caught} / {given}" + (" |" if given else " |"))
text="\n".join(rows)
d=open('/verif/DESIGN.md').read()
b,e='<!-- BEGIN STATUS -->','<!-- END STATUS -->'
d=d[:d.index(b)+len(b)]+"\n"+text+"\n"+d[d.index(e):]
open('/verif/DESIGN.md','w').write(d)
print(len(rows))
