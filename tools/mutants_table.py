#!/usr/bin/env python3
# regenerates DESIGN.md section 8.4 (between the MUTANTS markers) from /verif/seeded/*/ and seeded/reverts/results.tsv
import json,os,re,glob
out=[]
out.append("**Seeded changes written by fresh sub-agents** (each got only the property text and a scratch worktree; every change compiles and passes the 1107 existing tests; `patch.diff`, the demonstration and `meta.json` are in `/verif/seeded/<ID>/`). `caught by` = the quick tier of the named check exits 1 on a scratch copy with the patch applied (`tools/mutant.sh`, `result.txt`).\n")
out.append("| Property | Patch | What the change does | Caught by (first signature) |\n|---|---|---|---|")
for d in sorted(glob.glob('/verif/seeded/C*')):
    pid=os.path.basename(d)
    try: meta=json.load(open(d+'/meta.json'))
    except Exception: meta={}
    res=open(d+'/result.txt').read() if os.path.exists(d+'/result.txt') else ''
    blocks=re.split(r'(?m)^== ',res)[1:]
    summ=meta.get('summary','')
    if isinstance(summ,dict): summ=json.dumps(summ)
    for b in blocks:
        name=os.path.basename(b.split()[0])
        results=re.findall(r'MUTANT-RESULT (\S+) exit=(\d)',b)
        sigs=re.findall(r'signature: (.*)',b)
        caught=[r[0] for r in results if r[1]=='1']
        missed=[r[0] for r in results if r[1]!='1']
        verdict=(', '.join(caught)+(' (`'+sigs[0][:90].replace('|','\\|')+'`)' if sigs else '')) if caught else '**missed**'
        if caught and missed: verdict+=' ; not by '+', '.join(missed)
        what=summ if name=='patch.diff' else meta.get('summary2', meta.get('patch2_summary','second independent change (see DEMO.md)'))
        if isinstance(what,(dict,list)): what=json.dumps(what)
        out.append(f"| {pid} | {name} | {str(what)[:260].replace('|','/').replace(chr(10),' ')} | {verdict} |")
out.append("")
p='/verif/seeded/reverts/results.tsv'
if os.path.exists(p):
    rows=[l.rstrip('\n').split('\t') for l in open(p) if '\t' in l]
    out.append(f"**Reverted repairs** ({len(rows)} of the `fix:` commits reverted one at a time in a scratch copy; the property's quick tier is run):\n")
    out.append("| Commit | Property | Result | First signature |\n|---|---|---|---|")
    for r in rows:
        r+=['']*(5-len(r))
        if r[1] in ('C33','C36'):
            res='not run (the scratch runner does not rebuild the CLI / C library these checks drive)'
        elif 'exit=1 ' in r[2]+' ' and 'exit=13' not in r[2]: res='caught'
        elif 'exit=134' in r[2]: res='harness process aborted by the reintroduced defect (exit 134; C23 decodes filters in-process)'
        elif 'exit=2' in r[2]: res='inconclusive (exit 2)'
        elif 'PATCH' in r[2]: res='the reverse patch no longer applies (later repairs touch the same lines)'
        elif 'BUILD' in r[2]: res='build failed'
        else: res='**missed**'
        out.append(f"| `{r[0]}` {r[4][:70].replace('|','/')} | {r[1]} | {res} | `{r[3][:90].replace('|','/')}` |")
text="\n".join(out)
dsg=open('/verif/DESIGN.md').read()
b,e='<!-- BEGIN MUTANTS -->','<!-- END MUTANTS -->'
dsg=dsg[:dsg.index(b)+len(b)]+"\n"+text+"\n"+dsg[dsg.index(e):]
open('/verif/DESIGN.md','w').write(dsg)
print(len(out),'lines')
