#!/usr/bin/env python3
import json,sys
K=['put','commit','merge','list_insert','splice_text','delete','list_delete','list_put','put_object','insert_object','increment','list_increment','mark','unmark','splice','block','fork','save_load','empty_change','rollback','apply','sync','record_heads','update_text','isolate','integrate','set_actor','text_put','load_inc']
def show(c,ind=''):
    if isinstance(c,dict) and 'steps' in c:
        print(ind,{k:c[k] for k in c if k!='steps'})
        for s in c['steps']: print(ind,' ',K[s['k']] if s['k']<len(K) else s['k'], {k:v for k,v in s.items() if k!='k'})
    elif isinstance(c,list):
        for x in c: show(x,ind)
    else: print(ind,json.dumps(c)[:2000])
for f in sys.argv[1:]:
    d=json.load(open(f)); print('==',f); print(d.get('signature')); print(d.get('detail','')[:1200]); show(d['case'])
