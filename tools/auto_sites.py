#!/usr/bin/env python3
# iterate a check, auto-recording allocation-refused sites as known findings (review the list afterwards)
import subprocess,sys,re,json,shutil,os,random
pid=sys.argv[1]; rounds=int(sys.argv[2]); pat=sys.argv[3] if len(sys.argv)>3 else 'abort:allocation-refused:'
WHAT="run-length / count amplification: a few input bytes declare millions of items and this site materialises them without a bound (request above 64 MiB + 64 KiB per input byte; the process aborts)"
clean=0
for r in range(rounds):
    env=dict(os.environ,VERIF_SEED=str(random.randrange(1,1<<30)))
    out=subprocess.run(['./check',pid,'quick'],capture_output=True,env=env).stdout.decode(errors='replace')
    viol=re.findall(r'VIOLATION property=(\S+) replay=(\S+)\n\s+signature: (.*)',out)
    print([l for l in out.splitlines() if ' quick:' in l])
    new=0
    for prop,replay,sig in viol:
        if pat in sig:
            site=sig.split(pat)[1]
            name=re.sub(r'[^A-Za-z0-9]+','_',site)[-60:]
            os.makedirs(f'regress/{prop}',exist_ok=True)
            dst=f'regress/{prop}/bomb-{name}.json'
            shutil.copy(replay,dst)
            k=json.load(open('known_findings.json'))
            if not any(e['signature']==sig for e in k):
                k.append({"property":prop,"signature":sig,"status":"known","replay":dst,"what":f"{site}: {WHAT}"})
                json.dump(k,open('known_findings.json','w'),indent=2)
                print('ADDED',sig); new+=1
        else:
            print('OTHER',sig,replay)
    if not viol:
        clean+=1
        if clean>=3: break
    else: clean=0
