#!/bin/bash
# usage: seed_reuse.sh <SLOT> <NEWID>   reuse the warmed worktree /tmp/seed/<SLOT> for another property
slot=$1; id=$2; d=/tmp/seed/$slot
mkdir -p /tmp/seed/done/$slot-$(date +%s); mv $d/out /tmp/seed/done/$slot-$(date +%s)/ 2>/dev/null; mkdir -p $d/out
git -C $d/repo checkout -q -- . ; git -C $d/repo clean -fdq; git -C $d/repo checkout -q --detach $(git -C /repo rev-parse HEAD)
python3 - "$id" > $d/PROPERTY.json <<'PY'
import json,sys
for l in open('/verif/properties.jsonl'):
    p=json.loads(l)
    if p['id']==sys.argv[1]:
        print(json.dumps(p,indent=1))
PY
python3 - $slot $id > $d/prompt.txt <<'PY'
import sys
slot,id=sys.argv[1:3]
t=open('/tmp/seed/PROMPT2.txt').read()
print(t.replace('__SLOT__',slot).replace('__ID__',id).replace('__PROPERTY__',open(f'/tmp/seed/{slot}/PROPERTY.json').read()))
PY
echo $id > $d/CURRENT_ID
