#!/bin/bash
# usage: enum_sites.sh <ID> [rounds]  -- lists new signatures; does NOT add them (review first)
id=$1; rounds=${2:-1}
for i in $(seq 1 $rounds); do
  VERIF_SEED=$((RANDOM)) timeout 1500 ./check $id quick 2>&1 | grep -a "$id quick\|signature:\|VIOLATION" | cut -c1-260
done
